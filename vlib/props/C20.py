"""C20 - Hole-punch demux diverts only punch/STUN packets (DESIGN.md section 4, C20)."""
import hashlib
import json
import os
import random
import struct
import sys
import time

from vlib import common

GO = dict(module="extras", pkg="realm", pkgname="realm",
          files={"zz_verif_c20_test.go": "c20/c20_test.go"}, run="TestVerifC20")
# socket ownership in the server runtime that owns the realm socket: harness injected into app/cmd (module app)
GO_RT = dict(module="app", pkg="cmd", pkgname="cmd",
             files={"zz_verif_c20rt_test.go": "c20/c20_runtime_test.go"}, run="TestVerifC20Runtime")
PARAMS_NAME = "ParamsC20"
HEADER = ("From Hy Require Import lib.Harness model.C20_Punch model.C20_Owner corr.C20_Corr.\nFrom Coq Require Import ZArith.\n"
          "Local Open Scope N_scope.\n")
RULE = ("seeded generator. Codec: EncodePunchPacket on valid/invalid types and metadata (random salt/padding read back from the "
        "output and fed to the model); DecodePunchPacket on packets built independently with hashlib: every padding boundary "
        "(0,1,31..33,1023,1024,1025), both types, truncations, single-bit flips in salt/magic/type/nonce/padding, forged type bytes, "
        "cross-attempt (other nonce / other key / both), upper-case hex, malformed metadata, random and QUIC-like datagrams at the "
        "length-window boundaries. Demux: histories over a scripted net.PacketConn (adds incl. invalid/overwriting/shared metadata, "
        "removes, batches of punch/other-attempt/removed-attempt/damaged/QUIC-like/STUN/near-STUN datagrams, injected read errors, "
        "unusable source addresses, short read buffers, event-buffer overflow, drains). ServerPuncher: add/remove/dispatch histories in a "
        "synctest bubble, attempt ids in lower/upper/mixed-case spellings (incl. two spellings of one id registered side by side and the "
        "nonce text used as id, as app/cmd/server.go does); full ServerPuncher.Respond runs (registration, hello ticker, completion by a "
        "hello/ack of the attempt, by timeout or by cancellation, duplicate and other-spelling registrations while in flight) followed by "
        "late/retransmitted punch packets of the finished attempt plus a marker datagram (must come out of ReadFrom byte-identical, in order) "
        "and by re-registration of the same id (must succeed, and its packets are withheld again); Respond through EVERY exit: the validation "
        "exits (empty id, malformed metadata, no compatible peer candidate: IPv6-only / IPv4-mapped / port 0 / zero AddrPort / empty list / "
        "family mismatch; negative timeout; negative interval; zero timeout and interval = defaults), the duplicate-id exit while another "
        "Respond with that id waits (the waiting one must stay registered and still get its packets), success, timeout, cancellation, each "
        "with the puncher's lifetime context (the one given to NewServerPuncher; the Respond context is not derived from it) cancelled "
        "before the call, right after registration, between datagrams, or after the event; after every return both registries are read "
        "directly (PunchPacketConn.attempts = exactly the calls in progress) and late packets + marker + re-registration follow. Thorough adds concurrent add/remove while reading under -race, linearised and replayed through the model. "
        "Runtime stage (harness injected into app/cmd, module app): the code that OWNS the realm socket - startRealmServerRuntime (startup STUN discovery on the "
        "socket itself, registration), then, with a QUIC-side reader looping on PunchPacketConn.ReadFrom as the QUIC server does once fillRealmConn has handed "
        "the conn over, the session goroutines and registerWithBackoff - driven over a real UDP socket on 127.0.0.1:0 (wrapped only to LOG, from the call stack, "
        "who calls ReadFrom / SetReadDeadline on it), scripted STUN servers (answer / answer first / duplicate / wrong transaction first / never answer; one or "
        "two servers) and an httptest rendezvous server (register ok / 500 with back-off / 400 for good; heartbeat ok / 404 / 401 / 500 until the TTL lapses; events "
        "stream held / 404 / 401 / dropped / punch event with a fresh or a stale STUN cache): histories startup -> serving -> session loss -> re-register, "
        "repeated, while a sender injects a stream of unique datagrams (QUIC long/short header 20..1200 bytes, near-STUN, punch packets of an attempt nobody "
        "registered, random; STUN binding responses and punch packets of a registered attempt in between) in bursts placed INSIDE every STUN round trip and every "
        "rendezvous request, plus a trickle.  Verdict on the implementation alone: what the QUIC-side ReadFrom returned is byte for byte, in order, exactly the "
        "non-STUN non-punch datagrams sent while it served (none consumed elsewhere, none twice), nothing that had to be withheld came out, ReadFrom never failed "
        "(a deadline armed by another party on the shared socket makes it fail), and the end marker arrives.  The raw-socket log is replayed through the Coq "
        "socket-ownership LTS (model/C20_Owner.v): every reader must be one the model's transcription of server.go knows in that phase, and the model must "
        "deliver the same list to QUIC.  "
        "Every Go result is compared (a) with the Coq model inside the kernel and (b) with an independent python/hashlib reference. "
        "Non-trivial = a packet that decodes, a near miss (damaged/cross-attempt/window boundary), or a history in which at least one "
        "datagram is withheld and one is passed. Distinct = distinct JSON case.")
ASSUMPTIONS = [
    "pion/stun's IsMessage/Decode/XORMappedAddress/MappedAddress classify a datagram as a binding-success response with a mapped address "
    "(oracle `is_stun_resp`; the harness answers it by calling pion directly; the RFC 5389 header condition `stun_hdr_ok` is checked on every answer)",
    "SHA-256 masks of two different (key, salt) pairs do not agree on the 25 header bytes in the way needed to forge a header "
    "(explicit hypothesis `mask_collision_free` of C20_decode_iff_same_meta / C20_salt_flip; everything else is unconditional)",
    "crypto/sha256 computes FIPS 180-4 SHA-256 (lib/Sha256.v is checked against the NIST vectors and, through the codec cases, against crypto/sha256 itself)",
    "the attempt registry is accessed only under PunchPacketConn.mu, so Add/Remove and the registry scan of one datagram are atomic (the LTS steps)",
    "socket ownership: the kernel hands every datagram of a UDP socket to exactly one caller of ReadFrom, in arrival order, and a socket has one read deadline "
    "shared by all its readers (the socket of model/C20_Owner.v); the readers of the realm socket are the QUIC server (through the conn fillRealmConn returns) "
    "and the discoveries started at the three sites of app/cmd/server.go (startRealmServerRuntime, registerWithBackoff, connectAddrs) - the runtime stage logs "
    "every actual caller from the call stack and fails the correspondence on any other",
]
TRUSTED = ["modelled rather than verified: extras/realm/punch.go, punch_conn.go, server_punch.go, addrToAddrPort (hand transcription in coq/model/C20_Punch.v); "
           "stun.go:204-244 and pion/stun are an oracle; candidatePunchAddrs (punch_engine.go) enters Respond's model only through the number of "
           "candidates it returns (read from the run), the select loop of Respond only through which case returned",
           "python reference codec (hashlib) used for the additional independent verdict",
           "modelled rather than verified: which discovery each site of app/cmd/server.go runs (site_how / site_phase in coq/model/C20_Owner.v) and the receive loops of "
           "realm.Discover / DiscoverWithDemux as far as the socket's read side is concerned; tied by the runtime stage's raw-socket log on every run"]
PER_SHARD = 160
EXTRA_TARGETS = ["corr/C20_Corr.vo"]

MAGIC = b"HYRLMv1\x00"
SALT, HDR, MINW, MAXPAD = 8, 25, 33, 1024
MAXW = MINW + MAXPAD


# ---------------------------------------------------------------- python reference (hashlib)

def go_hex(s):
    """encoding/hex.DecodeString: None on any error."""
    if len(s) % 2:
        return None
    out = bytearray()
    for i in range(0, len(s), 2):
        a, b = s[i], s[i + 1]
        if a not in "0123456789abcdefABCDEF" or b not in "0123456789abcdefABCDEF":
            return None
        out.append(int(a + b, 16))
    return bytes(out)


def meta_ok(nonce, obfs):
    try:
        nonce.encode("ascii"), obfs.encode("ascii")
    except UnicodeEncodeError:
        return None
    n, k = go_hex(nonce), go_hex(obfs)
    if n is None or len(n) != 16 or k is None or len(k) != 32:
        return None
    return n, k


def xor_mask(data, key, salt):
    m = hashlib.sha256(key + salt).digest()
    return bytes(b ^ m[i % 32] for i, b in enumerate(data))


def py_encode(ty, nonce, key, salt, pad):
    return salt + xor_mask(MAGIC + bytes([ty]) + nonce + pad, key, salt)


def py_decode(pkt, nonce_hex, obfs_hex):
    if len(pkt) < MINW:
        return ("short",)
    if len(pkt) > MAXW:
        return ("long",)
    mk = meta_ok(nonce_hex, obfs_hex)
    if mk is None:
        return ("meta",)
    nonce, key = mk
    plain = xor_mask(pkt[SALT:], key, pkt[:SALT])
    if plain[:8] != MAGIC or plain[8] not in (1, 2) or plain[9:25] != nonce:
        return ("invalid",)
    return ("ok", plain[8], len(plain) - HDR)


def stun_msg(mtype, txid, attrs, cookie=0x2112A442, length=None):
    body = b""
    for t, v in attrs:
        body += struct.pack(">HH", t, len(v)) + v + b"\x00" * ((-len(v)) % 4)
    ln = len(body) if length is None else length
    return struct.pack(">HHI", mtype, ln, cookie) + txid + body


def xor_mapped(ip, port, txid):
    key = struct.pack(">I", 0x2112A442) + txid
    fam = 1 if len(ip) == 4 else 2
    return struct.pack(">BBH", 0, fam, port ^ 0x2112) + bytes(a ^ b for a, b in zip(ip, key))


def mapped(ip, port):
    fam = 1 if len(ip) == 4 else 2
    return struct.pack(">BBH", 0, fam, port) + ip


def py_stun_hdr_ok(p):
    return (len(p) >= 20 and p[4:8] == bytes.fromhex("2112a442") and (struct.unpack(">H", p[:2])[0] & 0x3FFF) == 0x0101
            and 20 + struct.unpack(">H", p[2:4])[0] <= len(p))


# ---------------------------------------------------------------- generator

def rnd(rng, n):
    return bytes(rng.randrange(256) for _ in range(n))


def new_meta(rng):
    return rnd(rng, 16).hex(), rnd(rng, 32).hex()


BAD_METAS = [("", ""), ("00", "11"), ("zz112233445566778899aabbccddeeff", None), (None, "0" * 63), (None, "0" * 66),
             ("0" * 30, None), ("0" * 34, None), ("0" * 31, None), (None, "g" + "0" * 63), ("0011223344556677 899aabbccddeeff", None)]


def bad_meta(rng):
    n, k = new_meta(rng)
    bn, bk = rng.choice(BAD_METAS)
    return (bn if bn is not None else n), (bk if bk is not None else k)


def quic_like(rng, n):
    b = bytearray(rnd(rng, n))
    if n:
        b[0] = rng.choice([0x40 | rng.randrange(64), 0xC0 | rng.randrange(64)])
    if n > 5 and b[0] & 0x80:
        b[1:5] = b"\x00\x00\x00\x01"
    return bytes(b)


def stun_variants(rng):
    """(datagram, expected classification by construction: True/False/None=unknown)"""
    tx = rnd(rng, 12)
    ip4, ip6, port = rnd(rng, 4), rnd(rng, 16), rng.randrange(1, 65536)
    good = stun_msg(0x0101, tx, [(0x0020, xor_mapped(ip4, port, tx))])
    v = [
        (good, True),
        (stun_msg(0x0101, tx, [(0x0020, xor_mapped(ip6, port, tx))]), True),
        (stun_msg(0x0101, tx, [(0x0001, mapped(ip4, port))]), True),
        (stun_msg(0x0101, tx, [(0x8022, b"srv!"), (0x0020, xor_mapped(ip4, port, tx))]), True),
        (stun_msg(0x4101, tx, [(0x0020, xor_mapped(ip4, port, tx))]), True),      # top type bits are ignored by pion
        (good + rnd(rng, 7), True),                                              # trailing bytes beyond the declared length
        (stun_msg(0x0001, tx, []), False),                                        # binding request
        (stun_msg(0x0111, tx, [(0x0009, b"\x00\x00\x04\x01bad!")]), False),       # binding error
        (stun_msg(0x0101, tx, []), False),                                        # no address
        (stun_msg(0x0101, tx, [(0x0020, xor_mapped(ip4, port, tx))], cookie=0x2112A443), False),
        (stun_msg(0x0101, tx, [(0x0020, xor_mapped(ip4, port, tx))], length=64), False),   # declared length > datagram
        (good[:19], False),
        (good[:24], False),
        (stun_msg(0x0101, tx, [(0x0020, xor_mapped(ip4, 0, tx))]), False),        # mapped port 0
        (stun_msg(0x0101, tx, [(0x0020, b"\x00\x03" + xor_mapped(ip4, port, tx)[2:])]), None),  # bad family
        (stun_msg(0x0101, tx, [(0x0020, xor_mapped(ip4, 0, tx)), (0x0001, mapped(ip4, port))]), False),  # xor present but port 0: no fall-through
        (stun_msg(0x0102, tx, [(0x0020, xor_mapped(ip4, port, tx))]), False),     # other method
    ]
    return v


def gen_codec(rng, scale):
    cases = []
    # --- EncodePunchPacket
    for _ in range(60 * scale):
        n, k = new_meta(rng)
        if rng.random() < 0.2:
            n, k = n.upper(), k.upper()
        cases.append({"k": "enc", "ty": rng.choice([1, 2]), "nonce": n, "obfs": k})
    for ty in (0, 3, 4, 255, 129):
        n, k = new_meta(rng)
        cases.append({"k": "enc", "ty": ty, "nonce": n, "obfs": k})
    for bn, bk in BAD_METAS:
        n, k = new_meta(rng)
        cases.append({"k": "enc", "ty": rng.choice([1, 2, 3]), "nonce": bn if bn is not None else n, "obfs": bk if bk is not None else k})

    # --- DecodePunchPacket
    def dec(pkt, n, k, want, cls):
        w = None if want is None else ({"ok": True, "ty": want[0], "pad": want[1]} if want else {"ok": False})
        cases.append({"k": "dec", "hex": pkt.hex(), "nonce": n, "obfs": k, "want": w, "cls": cls})

    pads = [0, 1, 2, 6, 7, 8, 31, 32, 33, 63, 64, 100, 1023, 1024]
    for pad in pads:
        for ty in (1, 2):
            n, k = new_meta(rng)
            pkt = py_encode(ty, bytes.fromhex(n), bytes.fromhex(k), rnd(rng, 8), rnd(rng, pad))
            dec(pkt, n, k, (ty, pad), "valid")
            if pad in (0, 1024):
                dec(pkt, n.upper(), k.upper(), (ty, pad), "valid-uppercase-meta")
    for pad in (1025, 1026, 2000):
        n, k = new_meta(rng)
        dec(py_encode(1, bytes.fromhex(n), bytes.fromhex(k), rnd(rng, 8), rnd(rng, pad)), n, k, False, "too-long")
    for _ in range(40 * scale):
        n, k = new_meta(rng)
        nb, kb = bytes.fromhex(n), bytes.fromhex(k)
        ty = rng.choice([1, 2])
        pad = rng.choice([0, 0, 1, 5, 17, 40, rng.randrange(0, 200)])
        salt = rnd(rng, 8)
        pkt = py_encode(ty, nb, kb, salt, rnd(rng, pad))
        # truncations
        for cut in sorted({0, 1, 8, 9, 24, 32, 33, len(pkt) - 1} & set(range(len(pkt)))):
            dec(pkt[:cut], n, k, (ty, cut - MINW) if cut >= MINW else False, "truncated" if cut < MINW else "truncated-padding")
        # single bit flips, one in every region
        for lo, hi, cls in ((0, 8, "flip-salt"), (8, 16, "flip-magic"), (16, 17, "flip-type"), (17, 33, "flip-nonce"), (33, len(pkt), "flip-padding")):
            if hi <= lo:
                continue
            pos, bit = rng.randrange(lo, hi), rng.randrange(8)
            q = bytearray(pkt)
            q[pos] ^= 1 << bit
            dec(bytes(q), n, k, (ty, pad) if cls == "flip-padding" else False, cls)
        # forged type byte under the right mask (incl. the other valid type: decodes, as that type)
        for fty in (0, 3, 3 - ty, 0x81, 0xFF):
            f = py_encode(fty, nb, kb, salt, rnd(rng, pad))
            dec(f, n, k, (fty, pad) if fty in (1, 2) else False, "forged-type")
        # cross-attempt
        n2, k2 = new_meta(rng)
        dec(pkt, n2, k, False, "other-nonce")
        dec(pkt, n, k2, False, "other-key")
        dec(pkt, n2, k2, False, "other-attempt")
        near = bytearray(nb)
        near[rng.randrange(16)] ^= 1 << rng.randrange(8)
        dec(pkt, bytes(near).hex(), k, False, "nonce-one-bit-off")
        neark = bytearray(kb)
        neark[rng.randrange(32)] ^= 1 << rng.randrange(8)
        dec(pkt, n, bytes(neark).hex(), False, "key-one-bit-off")
        # malformed metadata: the length window is checked first
        bn, bk = bad_meta(rng)
        dec(pkt, bn, bk, False, "bad-meta")
        dec(pkt[:20], bn, bk, False, "bad-meta-short")
    for _ in range(60 * scale):
        n, k = new_meta(rng)
        ln = rng.choice([0, 1, 20, 32, 33, 34, 50, 200, 1057, 1058, 1200])
        pkt = quic_like(rng, ln) if rng.random() < 0.5 else rnd(rng, ln)
        dec(pkt, n, k, False, "noise")
    return cases


def gen_addr(rng, port, kind=None):
    kind = kind or rng.choice(["v4"] * 6 + ["v6", "v4in6", "badip", "other", "port0", "port65536", "portneg", "nilip"])
    if kind == "v4":
        return {"udp": True, "ip": rnd(rng, 4).hex(), "port": port}
    if kind == "v6":
        return {"udp": True, "ip": (b"\x20\x01" + rnd(rng, 14)).hex(), "port": port}
    if kind == "v4in6":
        return {"udp": True, "ip": (b"\x00" * 10 + b"\xff\xff" + rnd(rng, 4)).hex(), "port": port}
    if kind == "badip":
        return {"udp": True, "ip": rnd(rng, rng.choice([3, 5, 12])).hex(), "port": port}
    if kind == "nilip":
        return {"udp": True, "ip": "", "port": port}
    if kind == "other":
        return {"udp": False, "ip": rnd(rng, 4).hex(), "port": port}
    if kind == "port0":
        return {"udp": True, "ip": rnd(rng, 4).hex(), "port": 0}
    if kind == "port65536":
        return {"udp": True, "ip": rnd(rng, 4).hex(), "port": 65536}
    return {"udp": True, "ip": rnd(rng, 4).hex(), "port": -1}


class PktGen:
    def __init__(self, rng):
        self.rng = rng
        self.port = 20000

    def next_port(self):
        p = self.port
        self.port += 1
        return p

    def punch(self, meta, pad=None, ty=None):
        rng = self.rng
        n, k = meta
        pad = rng.choice([0, 0, 1, 3, 10, 40]) if pad is None else pad
        return py_encode(ty or rng.choice([1, 2]), go_hex(n), go_hex(k), rnd(rng, 8), rnd(rng, pad))

    def make(self, metas, addr_kind=None):
        """one scripted item. metas: list of candidate metadata (registered or not)."""
        rng = self.rng
        r = rng.random()
        addr = gen_addr(rng, self.next_port(), addr_kind)
        sx = False
        if r < 0.45 and metas:
            m = rng.choice(metas)
            data = self.punch(m)
            kind = "punch"
            if rng.random() < 0.25:
                q = bytearray(data)
                pos = rng.randrange(0, len(q))
                q[pos] ^= 1 << rng.randrange(8)
                data, kind = bytes(q), "punch-flipped"
            elif rng.random() < 0.1:
                data, kind = data[:rng.choice([20, 32])], "punch-truncated"
        elif r < 0.6:
            data, kind = quic_like(rng, rng.choice([1, 25, 33, 40, 60, 1200])), "quic"
        elif r < 0.7:
            data, kind = rnd(rng, rng.choice([0, 8, 20, 33, 34, 90])), "random"
        elif r < 0.92:
            data, sx = rng.choice(stun_variants(rng))
            kind = "stun" if sx else "near-stun"
        else:
            return {"err": True, "hex": rnd(rng, rng.choice([0, 3, 40])).hex(), "addr": addr, "kind": "readerr", "sx": False}
        return {"err": False, "hex": data.hex(), "addr": addr, "kind": kind, "sx": sx}


def gen_demux(rng, nhist, server=False):
    cases = []
    for _ in range(nhist):
        pg = PktGen(rng)
        pool = [new_meta(rng) for _ in range(3)]
        pool.append((pool[0][0].upper(), pool[0][1].upper()))   # same bytes, different text
        outsider = new_meta(rng)
        # attempt ids are opaque strings (the real caller passes the rendezvous nonce text): spellings that differ only in
        # letter case are different attempts, and a removal must hit exactly the spelling that was registered
        ids = ["a1", "A1", "b2", "C3", "Dd", "dD", respell(rng, pool[1][0], "upper"), respell(rng, pool[2][0], "mixed")]
        reg = {}
        ever = []
        ops = []
        nops = rng.randint(5, 10)
        buf = rng.choice([2048] * 5 + [64, 40, 33, 20])
        cap = rng.choice([-1, 0, 1, 2, 3, 16])
        for _ in range(nops):
            r = rng.random()
            if r < 0.3 or not ops:
                x = rng.random()
                if x < 0.1:
                    n, k = rng.choice(pool)
                    ops.append({"op": "add", "id": "", "nonce": n, "obfs": k})
                elif x < 0.25:
                    n, k = bad_meta(rng)
                    ops.append({"op": "add", "id": rng.choice(ids), "nonce": n, "obfs": k})
                else:
                    i, (n, k) = rng.choice(ids), rng.choice(pool)
                    ops.append({"op": "add", "id": i, "nonce": n, "obfs": k})
                    if not server or i not in reg:
                        reg[i] = (n, k)
                    ever.append((n, k))
            elif r < 0.45:
                i = rng.choice(list(reg) or ids) if rng.random() < 0.8 else rng.choice(ids)
                ops.append({"op": "rm", "id": i})
                reg.pop(i, None)
            elif r < 0.85:
                cands = list(reg.values()) * 3 + ever + [outsider]
                force = "v4" if rng.random() < 0.6 else None
                pk = [pg.make(cands, force) for _ in range(rng.randint(2, 7))]
                ops.append({"op": "pkts", "pkts": pk})
            else:
                if server:
                    ops.append({"op": "take", "id": rng.choice(list(reg) or ids)})
                else:
                    ops.append({"op": "drain"})
        if server:
            for i in ids:
                ops.append({"op": "take", "id": i})
        else:
            ops.append({"op": "drain"})
        cases.append({"k": "server" if server else "demux", "cap": cap if not server else rng.choice([0, 4, 16]), "buf": buf, "ops": ops})
    return cases


def respell(rng, text, how=None):
    """the same hex text in another letter case (hex.DecodeString accepts both; a Go map key does not fold)"""
    how = how or rng.choice(["lower", "upper", "mixed"])
    if how == "lower":
        return text.lower()
    if how == "upper":
        return text.upper()
    out = "".join(ch.upper() if rng.random() < 0.5 else ch.lower() for ch in text)
    if out == out.lower():                       # make sure at least one letter is upper-case when there is one
        for i, ch in enumerate(out):
            if ch.isalpha():
                return out[:i] + ch.upper() + out[i + 1:]
    return out


def marker(rng, k):
    return b"marker-%d-" % k + rnd(rng, rng.choice([0, 3, 30]))


def gen_respond(rng, nhist):
    """ServerPuncher.Respond from registration to return, under attempt ids in every spelling, followed by late /
    retransmitted punch packets of the finished attempt + a marker (must reach the reader byte-identical, in order) and by
    re-registration of the same id (must succeed)."""
    cases = []
    for _ in range(nhist):
        pg = PktGen(rng)
        base = [new_meta(rng) for _ in range(3)]
        # the rendezvous server's spelling of nonce and key
        pool = [(respell(rng, n), respell(rng, k)) for n, k in base]
        if all(n == n.lower() for n, _ in pool):
            pool[0] = (respell(rng, pool[0][0], rng.choice(["upper", "mixed"])), pool[0][1])
        outsider = new_meta(rng)
        ops = []
        addids = []          # ids registered through add (their channels are drained at the end)
        reg = {}             # generator's view: id -> meta (exact string)

        def pkt(data, kind):
            return {"err": False, "hex": data.hex(), "addr": gen_addr(rng, pg.next_port(), "v4"), "kind": kind, "sx": False}

        def noise(k):
            cands = list(reg.values()) + [outsider]
            return [pg.make(cands, "v4" if rng.random() < 0.7 else None) for _ in range(k)]

        # other attempts in progress
        for j in range(rng.choice([0, 1, 1, 2])):
            m = pool[2 - j]
            i = rng.choice([m[0], respell(rng, m[0]), "Attempt-%d" % j, "aB"])
            ops.append({"op": "add", "id": i, "nonce": m[0], "obfs": m[1]})
            if i not in reg:
                reg[i] = m
                addids.append(i)
        mk = 0
        prev = None
        for rnd_i in range(rng.randint(1, 3)):
            m = pool[0] if rng.random() < 0.7 else pool[1]
            if any(v == m for v in reg.values()):
                m = pool[0] if not any(v == pool[0] for v in reg.values()) else m
            # app/cmd/server.go: Respond(ctx, ev.Nonce, ..., ev.PunchMetadata, ...): the id is the nonce text
            i = m[0] if rng.random() < 0.85 else rng.choice(["Ab", "RESPOND-%d" % rnd_i, respell(rng, m[0])])
            if prev is not None and rng.random() < 0.5:
                i, m = prev                                   # the same id again after it has finished
            if i in reg:
                continue
            ops.append({"op": "rstart", "id": i, "nonce": m[0], "obfs": m[1], "tick": rng.choice([0, 0, 1, 3])})
            reg[i] = m
            r = rng.random()
            if r < 0.3:       # the same spelling while in flight: duplicate
                ops.append({"op": "add", "id": i, "nonce": m[0], "obfs": m[1]})
            elif r < 0.5:     # another spelling of the id: a different attempt (own metadata, so no ambiguity)
                j = respell(rng, i, "lower") if i != i.lower() else respell(rng, i, "upper")
                if j != i and j not in reg:
                    m2 = pool[1] if m != pool[1] else pool[0]
                    if not any(v == m2 for v in reg.values()):
                        ops.append({"op": "add", "id": j, "nonce": m2[0], "obfs": m2[1]})
                        reg[j] = m2
                        addids.append(j)
            finish = rng.random() < 0.75
            batch = noise(rng.randint(0, 3))
            if finish:
                batch.append(pkt(pg.punch(m, ty=rng.choice([1, 1, 2])), "punch-finishing"))
                # what follows in the same read loop already belongs to a finished attempt
                for _ in range(rng.randint(0, 2)):
                    batch.append(pkt(pg.punch(m, ty=1), "punch-late"))
                mk += 1
                batch.append(pkt(marker(rng, mk), "marker"))
                batch += noise(rng.randint(0, 2))
            ops.append({"op": "pkts", "pkts": batch})
            ops.append({"op": "rend", "end": rng.choice(["timeout", "timeout", "cancel"])})
            reg.pop(i, None)
            # late / retransmitted packets of the finished attempt, then a marker
            late = noise(rng.randint(0, 2))
            for _ in range(rng.randint(1, 3)):
                late.append(pkt(pg.punch(m, ty=rng.choice([1, 1, 2])), "punch-late"))
                if rng.random() < 0.4:
                    late += noise(1)
            mk += 1
            late.append(pkt(marker(rng, mk), "marker"))
            ops.append({"op": "pkts", "pkts": late})
            # the id is free again
            r = rng.random()
            if r < 0.45:
                ops.append({"op": "add", "id": i, "nonce": m[0], "obfs": m[1]})
                reg[i] = m
                if i not in addids:
                    addids.append(i)
                again = noise(rng.randint(0, 2)) + [pkt(pg.punch(m), "punch")]
                mk += 1
                again.append(pkt(marker(rng, mk), "marker"))
                ops.append({"op": "pkts", "pkts": again})
                if rng.random() < 0.7:
                    ops.append({"op": "rm", "id": i})
                    reg.pop(i, None)
                    ops.append({"op": "pkts", "pkts": [pkt(pg.punch(m), "punch-late"), pkt(marker(rng, mk), "marker")]})
            prev = (i, m)
        for i in addids:
            ops.append({"op": "take", "id": i})
        cases.append({"k": "server", "cap": rng.choice([0, 1, 4, 16]), "buf": 2048, "ops": ops})
    return cases


V4_PEERS = ["192.0.2.7:40000", "198.51.100.9:40001", "203.0.113.5:1", "10.1.2.3:65535"]
V6_PEERS = ["[2001:db8::7]:40000", "[2001:db8:1::9]:443", "[fe80::1]:5000"]
V4IN6_PEERS = ["[::ffff:192.0.2.9]:40000"]
PORT0_PEERS = ["192.0.2.7:0", "[2001:db8::7]:0"]


def peer_kind(p):
    if p == "":
        return "invalid"
    if p.endswith(":0"):
        return "port0"
    if p.startswith("[::ffff:"):
        return "v4in6"
    return "v6" if p.startswith("[") else "v4"


def peers_compatible(peers, fam):
    """independent reading of candidatePunchAddrs' filter for a socket bound to an IPv4 address"""
    if peers is None:
        return 1
    n = 0
    for p in peers:
        k = peer_kind(p)
        if (fam != 2 and k == "v4") or (fam == 2 and k in ("v6", "v4in6")):
            n += 1
    return n


def peers_for(rng, usable):
    """(peers, family) for Respond on the harness socket (127.0.0.1)"""
    junk = V6_PEERS + V4IN6_PEERS + PORT0_PEERS + [""]
    if usable:
        r = rng.random()
        if r < 0.3:
            return None, 0
        if r < 0.8:
            ps = [rng.choice(V4_PEERS) for _ in range(rng.randint(1, 2))] + [rng.choice(junk) for _ in range(rng.randint(0, 2))]
            rng.shuffle(ps)
            return ps, rng.choice([0, 0, 1])
        ps = [rng.choice(V6_PEERS + V4IN6_PEERS)] + [rng.choice(V4_PEERS + PORT0_PEERS + [""]) for _ in range(rng.randint(0, 1))]
        rng.shuffle(ps)
        return ps, 2
    r = rng.random()
    if r < 0.15:
        return [], rng.choice([0, 1, 2])
    if r < 0.4:
        return [rng.choice(V6_PEERS) for _ in range(rng.randint(1, 2))], rng.choice([0, 1])      # IPv6-only peer, IPv4 socket
    if r < 0.5:
        return [rng.choice(V4IN6_PEERS)], rng.choice([0, 1])
    if r < 0.65:
        return [rng.choice(PORT0_PEERS) for _ in range(rng.randint(1, 2))], rng.choice([0, 1, 2])
    if r < 0.75:
        return [""] * rng.randint(1, 2), rng.choice([0, 1, 2])
    if r < 0.9:
        return [rng.choice(V4_PEERS) for _ in range(rng.randint(1, 2))] + [rng.choice(PORT0_PEERS)], 2   # family mismatch
    return [rng.choice(junk) for _ in range(rng.randint(2, 4))], rng.choice([0, 1])


def rstart_expect(op, reg):
    """which exit Respond takes, read off the arguments (reference; the order is the order of the checks)"""
    if op["id"] == "":
        return "id"
    if meta_ok(op["nonce"], op["obfs"]) is None:
        return "meta"
    if peers_compatible(op.get("peers"), op.get("fam", 0)) == 0:
        return "cand"
    if op.get("tmo") is not None and op["tmo"] < 0:
        return "timeout"
    if op.get("itv") is not None and op["itv"] < 0:
        return "interval"
    if op["id"] in reg:
        return "dup"
    return "block"


INVALID_KINDS = ["id", "meta", "cand", "cand", "cand", "timeout", "timeout", "interval", "interval"]


def gen_respond_exits(rng, nhist):
    """ServerPuncher.Respond through every exit.  (a) the puncher's lifetime context is cancelled (pstop) before the call,
    right after the registration, between datagrams or after the event, and Respond then leaves by its own context, its
    timeout or (if the dispatcher was still there) an event; (b) calls whose arguments fail one of the checks, and calls
    under an id that another, waiting Respond holds.  After every return: late punch packets of that attempt + a marker
    (must reach the reader), then the id is registered again (must succeed)."""
    cases = []
    for _ in range(nhist):
        pg = PktGen(rng)
        pool = [(respell(rng, n), respell(rng, k)) for n, k in (new_meta(rng) for _ in range(4))]
        outsider = new_meta(rng)
        ops, addids, reg = [], [], {}
        st = {"alive": True, "mk": 0}

        def pkt(data, kind):
            return {"err": False, "hex": data.hex(), "addr": gen_addr(rng, pg.next_port(), "v4"), "kind": kind, "sx": False}

        def mark():
            st["mk"] += 1
            return pkt(marker(rng, st["mk"]), "marker")

        def noise(k, excl=None):
            cands = [v for v in reg.values() if v != excl] + [outsider]
            return [pg.make(cands, "v4" if rng.random() < 0.7 else None) for _ in range(k)]

        def call(i, m, bad=None, **kw):
            """an rstart op; bad = the check that is to fail"""
            op = {"op": "rstart", "id": i, "nonce": m[0], "obfs": m[1], "tick": 0}
            peers, fam = peers_for(rng, bad != "cand")
            if peers is not None or fam:
                op["peers"], op["fam"] = peers, fam
            if bad == "id":
                op["id"] = ""
            elif bad == "meta":
                op["nonce"], op["obfs"] = bad_meta(rng)
            elif bad == "timeout":
                op["tmo"] = rng.choice([-1, -400, -10000])
            elif bad == "interval":
                op["itv"] = rng.choice([-1, -50, -1000])
            if bad not in ("timeout",) and rng.random() < 0.3:
                op["tmo"] = rng.choice([0, 800, 120])            # 0 = defaultPunchTimeout
            if bad not in ("interval",) and rng.random() < 0.3:
                op["itv"] = rng.choice([0, 20, 150])             # 0 = defaultPunchInterval
            if bad == "cand" and rng.random() < 0.2:
                op["tmo"] = -5                                   # two checks fail: the first one in program order decides
            if bad == "timeout" and rng.random() < 0.2:
                op["itv"] = -1
            op.update(kw)
            # the hello ticker periods the harness lets pass must stay inside the timeout
            tmo = {None: 400, 0: 10000}.get(op.get("tmo"), op.get("tmo"))
            itv = {None: 50, 0: 100}.get(op.get("itv"), op.get("itv"))
            while op["tick"] > 0 and op["tick"] * itv >= tmo:
                op["tick"] -= 1
            return op

        def after_return(i, m, free=True, excl=None):
            """late / retransmitted packets of the attempt of a call that has returned, a marker, then the id again"""
            late = noise(rng.randint(0, 1), excl=excl)
            if meta_ok(*m) is not None:
                for _ in range(rng.randint(1, 2)):
                    late.append(pkt(pg.punch(m, ty=rng.choice([1, 1, 2])), "punch-late"))
            late.append(mark())
            ops.append({"op": "pkts", "pkts": late})
            if not free or i == "" or meta_ok(*m) is None or i in reg or any(v == m for v in reg.values()):
                return
            r = rng.random()
            if r < 0.55:
                ops.append({"op": "add", "id": i, "nonce": m[0], "obfs": m[1]})
                reg[i] = m
                ops.append({"op": "pkts", "pkts": noise(rng.randint(0, 1)) + [pkt(pg.punch(m), "punch"), mark()]})
                ops.append({"op": "rm", "id": i})
                reg.pop(i)
                if rng.random() < 0.5:
                    ops.append({"op": "pkts", "pkts": [pkt(pg.punch(m), "punch-late"), mark()]})
            elif r < 0.8:
                ops.append(call(i, m))
                reg[i] = m
                batch = noise(rng.randint(0, 1), excl=m) + [pkt(pg.punch(m, ty=1), "punch-finishing" if st["alive"] else "punch-unrouted"), mark()]
                ops.append({"op": "pkts", "pkts": batch})
                ops.append({"op": "rend", "end": rng.choice(["timeout", "cancel"])})
                reg.pop(i)
                ops.append({"op": "pkts", "pkts": [pkt(pg.punch(m), "punch-late"), mark()]})

        def invalid_call(i, m, waiting=None):
            """a call that fails a check; waiting = (id, meta) of the Respond that is blocked meanwhile"""
            bad = rng.choice(INVALID_KINDS)
            op = call(i, m, bad)
            ops.append(op)
            mm = (op["nonce"], op["obfs"])
            # packets under the metadata this call passed are nobody's (unless they are the waiting attempt's)
            if waiting is not None and (mm == waiting[1] or op["id"] == waiting[0]):
                return
            after_return(op["id"], mm, free=waiting is None, excl=waiting[1] if waiting else None)

        # another attempt in progress
        if rng.random() < 0.4:
            m = pool[3]
            i = rng.choice([m[0], "Attempt-0", "aB"])
            ops.append({"op": "add", "id": i, "nonce": m[0], "obfs": m[1]})
            reg[i] = m
            addids.append(i)
        plan = rng.choice(["none", "before", "registered", "registered", "between", "between", "after-event", "invalid-only"])
        for ci in range(rng.randint(1, 2)):
            m = pool[ci]
            i = m[0] if rng.random() < 0.8 else rng.choice(["Ab", "RESPOND-%d" % ci, respell(rng, m[0])])
            if i in reg:
                continue
            for _ in range(rng.choice([0, 1, 1, 2]) if plan != "invalid-only" else rng.randint(2, 3)):
                invalid_call(i, m)
            if plan == "invalid-only":
                continue
            if plan == "before" and st["alive"]:
                ops.append({"op": "pstop"})
                st["alive"] = False
            ops.append(call(i, m, tick=rng.choice([0, 0, 1, 2])))
            reg[i] = m
            if plan == "registered" and st["alive"]:
                ops.append({"op": "pstop"})
                st["alive"] = False
            # calls that return at once while this one waits
            for _ in range(rng.choice([0, 1, 1, 2])):
                r = rng.random()
                if r < 0.45:      # same id, arguments fine: duplicate
                    m2 = m if rng.random() < 0.6 else pool[2]
                    ops.append(call(i, m2))
                elif r < 0.7:     # same id, arguments not fine: the check fails before the id is looked at
                    ops.append(call(i, m, rng.choice(["cand", "timeout", "interval"])))
                else:             # another id, arguments not fine
                    invalid_call(pool[2][0], pool[2], waiting=(i, m))
                if rng.random() < 0.5:
                    ops.append({"op": "pkts", "pkts": noise(rng.randint(1, 2), excl=m) + [mark()]})
            event = False
            if plan == "between":
                ops.append({"op": "pkts", "pkts": noise(rng.randint(1, 3), excl=m) + [mark()]})
                if st["alive"]:
                    ops.append({"op": "pstop"})
                    st["alive"] = False
            if st["alive"] and (plan == "after-event" or rng.random() < 0.6):
                event = True
                batch = noise(rng.randint(0, 2), excl=m) + [pkt(pg.punch(m, ty=rng.choice([1, 1, 2])), "punch-finishing")]
                for _ in range(rng.randint(0, 2)):
                    batch.append(pkt(pg.punch(m, ty=1), "punch-late"))
                batch.append(mark())
                ops.append({"op": "pkts", "pkts": batch})
                if plan == "after-event":
                    ops.append({"op": "pstop"})
                    st["alive"] = False
            elif not st["alive"]:
                # its packets are still withheld (it is registered) but nobody forwards them: Respond keeps waiting
                batch = noise(rng.randint(0, 2), excl=m)
                for _ in range(rng.randint(1, 2)):
                    batch.append(pkt(pg.punch(m, ty=rng.choice([1, 2])), "punch-unrouted"))
                batch.append(mark())
                ops.append({"op": "pkts", "pkts": batch})
            ops.append({"op": "rend", "end": rng.choice(["timeout", "timeout", "cancel", "cancel"])})
            reg.pop(i)
            after_return(i, m)
        for i in addids:
            ops.append({"op": "take", "id": i})
        cases.append({"k": "server", "cap": rng.choice([0, 1, 4, 16]), "buf": 2048, "ops": ops, "hist": "respond-exits"})
    return cases



# ---------------------------------------------------------------- runtime stage (app/cmd): who reads the realm socket

RT_LOSSES = ["hb-gone", "hb-unauth", "ev-gone", "ev-unauth", "ev-drop-gone", "hb-fail-ttl", "ev-fail-ttl"]


def rt_dgrams(rng, meta, n, base=0):
    """the stream the sender injects: (bytes, kind); every datagram is unique (a counter in its last / salt / txid bytes)"""
    foreign = new_meta(rng)
    out = []
    for i in range(base, base + n):
        ctr = struct.pack(">I", i)
        r = rng.random()
        if r < 0.64:
            ln = rng.choice([20, 21, 22, 24, 25, 27, 30, 31, 32] * 5 + [33, 34, 40, 48, 64, 90] * 2 + [300, 1200])
            b = bytearray(quic_like(rng, ln))
            b[-4:] = ctr
            out.append((bytes(b), "quic"))
        elif r < 0.72:
            tx = rnd(rng, 8) + ctr
            ip4, port = rnd(rng, 4), rng.randrange(1, 65536)
            v = rng.choice([
                stun_msg(0x0001, tx, []),                                                         # binding request
                stun_msg(0x0111, tx, [(0x0009, b"\x00\x00\x04\x01bad!")]),                       # binding error
                stun_msg(0x0101, tx, []),                                                         # success without an address
                stun_msg(0x0101, tx, [(0x0020, xor_mapped(ip4, port, tx))], cookie=0x2112A443),   # wrong cookie
                stun_msg(0x0101, tx, [(0x0020, xor_mapped(ip4, port, tx))], length=64),           # declared length > datagram
                stun_msg(0x0101, tx, [(0x0020, xor_mapped(ip4, 0, tx))]),                         # mapped port 0
                stun_msg(0x0101, tx, [(0x0020, xor_mapped(ip4, port, tx))])[:24],                 # truncated
            ])
            out.append((v, "near-stun"))
        elif r < 0.80:
            n_, k_ = foreign
            out.append((py_encode(rng.choice([1, 2]), bytes.fromhex(n_), bytes.fromhex(k_), rnd(rng, 4) + ctr,
                                  rnd(rng, rng.choice([0, 0, 1, 7, 20]))), "punch-foreign"))
        elif r < 0.87:
            n_, k_ = meta
            out.append((py_encode(rng.choice([1, 2]), bytes.fromhex(n_), bytes.fromhex(k_), rnd(rng, 4) + ctr,
                                  rnd(rng, rng.choice([0, 0, 1, 7, 20]))), "punch"))
        elif r < 0.94:
            tx = rnd(rng, 8) + ctr
            ip4, port = rnd(rng, 4), rng.randrange(1, 65536)
            out.append((rng.choice([stun_msg(0x0101, tx, [(0x0020, xor_mapped(ip4, port, tx))]),
                                    stun_msg(0x0101, tx, [(0x0001, mapped(ip4, port))])]), "stun"))
        else:
            ln = rng.choice([5, 8, 16, 29, 33, 50])
            b = bytearray(rnd(rng, ln))
            b[0] = rng.choice([0x16, 0x17, 0x80, 0xFF, 0x02, 0x20])
            b[-4:] = ctr
            out.append((bytes(b), "random"))
    return out


def rt_case(rng, name, losses, stun_modes=None, reg_fail=(), fatal=False, nstun=1, punch=None, ndg=None, **kw):
    """one history of the realm server runtime.  losses: how each session but the last is lost; stun_modes: what the
    STUN server(s) do on each refresh after startup; reg_fail: re-registrations (1-based) whose first Register fails
    (back-off, second STUN refresh); fatal: the last re-registration is rejected for good (400); punch: session index
    in which a punch event arrives over the events stream ("expire": the cached STUN result is stale by then)."""
    meta = new_meta(rng)
    rtmeta = new_meta(rng)
    c = {"k": "rt", "name": name, "stun_tmo_ms": rng.choice([350, 450, 600]), "hb_ms": rng.choice([25, 30, 40]), "ttl": 30,
         "punch_ms": 250, "meta": list(meta), "rtmeta": list(rtmeta), "trickle": rng.choice([30, 45, 60]),
         "trickle_ms": rng.choice([10, 15, 25]), "b_reg": rng.choice([2, 4]), "b_hb": rng.choice([0, 0, 1]), "b_ev": rng.choice([1, 2, 3]),
         "final": rng.choice([6, 10, 14]), "tail_hb": rng.choice([2, 3, 4])}
    nsess = len(losses) + 1
    hb, ev, reg = [], [], ["ok"]
    for si, how in enumerate(losses):
        pre = ["ok"] * rng.choice([0, 1, 2, 3])
        evs = []
        if punch is not None and punch[0] == si:
            # an events-based loss comes with the NEXT events request: the stream of the punch event drops after a while
            evs.append({"mode": "punch", "expire": bool(punch[1]), "hold_ms": 600 if how.startswith("ev-") else 0})
            pre += ["ok"] * 12                        # the punch response needs its time
        if how == "hb-gone":
            hb.append(pre + ["gone"])
        elif how == "hb-unauth":
            hb.append(pre + ["unauth"])
        elif how == "hb-fail-ttl":
            c["ttl"] = 1
            hb.append(pre + ["fail"] * 400)
        else:
            hb.append(pre + ["ok"] * 400)
        if how == "ev-gone":
            evs += [{"mode": "gone"}]
        elif how == "ev-unauth":
            evs += [{"mode": "unauth"}]
        elif how == "ev-drop-gone":
            evs += [{"mode": "drop"}] * rng.choice([1, 2]) + [{"mode": "gone"}]
        elif how == "ev-fail-ttl":
            c["ttl"] = 1
            evs += [{"mode": "fail"}] * 6
        ev.append(evs)
        # the re-registration that follows
        k = si + 1
        last = k == len(losses)
        if k in reg_fail:
            reg.append("fail")
        reg.append("fatal" if (fatal and last) else "ok")
    evs = []
    if punch is not None and punch[0] == nsess - 1:
        evs.append({"mode": "punch", "expire": bool(punch[1])})
        c["tail_hb"] = 22
    ev.append(evs)
    hb.append([])
    nref = len(losses) + len([k for k in reg_fail if k <= len(losses)]) + (1 if punch and punch[1] else 0)
    stun_modes = list(stun_modes or [])
    while len(stun_modes) < nref + 1:
        stun_modes.append(rng.choice(["ok", "ok", "ok", "dupe", "wrongtx", "fast", "drop"]))
    servers = []
    for sv in range(nstun):
        steps = [{"mode": "ok", "burst": 0, "map": 0}]           # the startup discovery
        for ri, m in enumerate(stun_modes):
            if nstun > 1 and sv > 0:
                m = kw.get("second_server", "drop")
            steps.append({"mode": m, "burst": rng.choice([14, 18, 24, 30]) if sv == 0 else rng.choice([0, 6]),
                          "map": rng.choice([0, 0, 1, 2]) + sv * 7})
        servers.append(steps)
    c.update({"stun": servers, "reg": reg, "hb": hb, "ev": ev, "end_regs": nsess - (1 if fatal else 0)})
    c.update({k_: v for k_, v in kw.items() if k_ != "second_server"})
    n = ndg or (150 + 70 * len(losses) + (120 if "hb-fail-ttl" in losses or "ev-fail-ttl" in losses or reg_fail else 0))
    dg = rt_dgrams(rng, meta, n)
    c["dg"] = [{"hex": b.hex(), "kind": k_} for b, k_ in dg]
    c["early"] = [(b"\x40early-" + rnd(rng, rng.choice([4, 20, 40])) + struct.pack(">I", i)).hex() for i in range(rng.choice([0, 3, 6]))]
    c["rtpunch"] = [py_encode(1, bytes.fromhex(rtmeta[0]), bytes.fromhex(rtmeta[1]), rnd(rng, 8), rnd(rng, rng.choice([0, 3]))).hex()
                    for _ in range(3)] if punch is not None else []
    return c


def gen_rt(rng, tier):
    cs = [
        rt_case(rng, "control", []),
        rt_case(rng, "hb-gone", ["hb-gone"], ["ok"]),
        rt_case(rng, "hb-unauth", ["hb-unauth"], ["dupe"]),
        rt_case(rng, "ev-gone", ["ev-gone"], ["ok"]),
        rt_case(rng, "ev-drop-gone", ["ev-drop-gone"], ["wrongtx"]),
        rt_case(rng, "stun-unanswered", [rng.choice(["hb-gone", "ev-gone"])], ["drop"]),
        rt_case(rng, "two-stun-one-dead", ["hb-gone"], ["ok"], nstun=2),
        rt_case(rng, "repeated", [rng.choice(RT_LOSSES[:5]) for _ in range(3)]),
        rt_case(rng, "register-backoff", ["hb-gone"], ["ok", "ok"], reg_fail=(1,)),
        rt_case(rng, "register-rejected", ["ev-gone"], ["ok"], fatal=True),
        rt_case(rng, "hb-fail-ttl", ["hb-fail-ttl"], ["ok"]),
        rt_case(rng, "punch-stale-cache", [], ["ok"], punch=(0, True)),
        rt_case(rng, "punch-then-loss", ["hb-gone"], ["ok", "ok"], punch=(0, True)),
        rt_case(rng, "punch-fresh-cache", ["ev-drop-gone"], ["fast"], punch=(1, False)),
    ]
    extra = 3 if tier == "quick" else 30
    for _ in range(extra):
        nl = rng.choice([1, 1, 2, 2, 3])
        losses = [rng.choice(RT_LOSSES[:5] + ["hb-fail-ttl"] * (1 if tier != "quick" else 0) + ["hb-gone"]) for _ in range(nl)]
        cs.append(rt_case(rng, "random", losses, nstun=rng.choice([1, 1, 2]),
                          reg_fail=((rng.randint(1, nl),) if rng.random() < 0.2 else ()),
                          fatal=rng.random() < 0.15,
                          punch=((rng.randrange(nl + 1), rng.random() < 0.7) if rng.random() < 0.3 else None),
                          second_server=rng.choice(["drop", "ok"])))
    return cs


def gen_conc(rng, n):
    cases = []
    for _ in range(n):
        na = rng.randint(1, 3)
        metas = [list(new_meta(rng)) for _ in range(na)]
        mut = []
        for _ in range(rng.randint(4, 30)):
            mut.append([rng.choice([0, 1]), rng.randrange(na)])
        pkts = []
        for i in range(rng.randint(20, 120)):
            addr = {"udp": True, "ip": "0a000001", "port": 20000 + i}
            if rng.random() < 0.7:
                a = rng.randrange(na)
                n_, k_ = metas[a]
                data = py_encode(rng.choice([1, 2]), bytes.fromhex(n_), bytes.fromhex(k_), rnd(rng, 8), rnd(rng, rng.choice([0, 3, 20])))
                pkts.append({"err": False, "hex": data.hex(), "addr": addr, "att": a})
            else:
                pkts.append({"err": False, "hex": quic_like(rng, rng.choice([33, 40, 60])).hex(), "addr": addr, "att": -1})
        at = sorted(rng.randrange(-1, len(pkts)) for _ in mut)
        cases.append({"k": "conc", "metas": metas, "mut": mut, "at": at, "pkts": pkts, "buf": 2048, "yield": rng.choice([0, 1, 3])})
    return cases


def gen(rng, tier):
    scale = 1 if tier == "quick" else int(os.environ.get("VERIF_C20_SCALE", "10"))   # env override: smoke tests of the thorough path only
    cases = gen_codec(rng, scale)
    cases += gen_demux(rng, 90 * scale)
    cases += gen_demux(rng, 30 * scale, server=True)
    cases += gen_respond(rng, 40 * scale)
    cases += gen_respond_exits(rng, 50 * scale)
    return cases


# ---------------------------------------------------------------- Coq terms

def cb(b):
    return common.coq_bytes(b)


def cstr(s):
    return cb(s.encode("latin-1", "replace"))


def meta_term(n, k):
    return "(mkMeta %s %s)" % (cstr(n), cstr(k))


def cres(o):
    if o.get("panic"):
        return "RPanic"
    if "hex" in o and o.get("k") == "enc":
        return "(REnc %s)" % cb(bytes.fromhex(o["hex"]))
    if "ty" in o and o.get("k") == "dec":
        return "(RDec %d %d%%nat)" % (o["ty"], o["pad"])
    return {"short": "RShort", "long": "RLong", "meta": "RMeta", "invalid": "RInvalid"}.get(o.get("err"), "RAnyErr")


def addr_term(a):
    return "(mkAddr %s %s (%d)%%Z)" % ("true" if a["udp"] else "false", cb(bytes.fromhex(a["ip"])) if a["udp"] else "[]", a["port"])


def pkt_term(p, buf, stun):
    return "(mkP %s %s %s %s)" % ("true" if p["err"] else "false", cb(bytes.fromhex(p["hex"])[:buf]), addr_term(p["addr"]),
                                  "true" if stun else "false")


def ev_term(e):
    return "(mkEv %s (%s, (%d)%%Z) %d %d%%nat)" % (cstr(e["id"]), cb(bytes.fromhex(e["ip"])), e["port"], e["ty"], e["pad"])


def lst(xs):
    return "[" + "; ".join(xs) + "]"


ROBS = {"id": "(ObsErr REId)", "meta": "(ObsErr REMeta)", "cand": "(ObsErr RECand)", "timeout": "(ObsErr RETimeout)",
        "interval": "(ObsErr REInterval)", "dup": "ObsDup"}


def to_coq(c, o):
    k = c["k"]
    if k == "enc":
        return "CEnc %d %s %s" % (c["ty"], meta_term(c["nonce"], c["obfs"]), cres(o))
    if k == "dec":
        return "CDec %s %s %s" % (cb(bytes.fromhex(c["hex"])), meta_term(c["nonce"], c["obfs"]), cres(o))
    if k in ("demux", "server"):
        if o.get("panic") or "ops" not in o or len(o["ops"]) != len(c["ops"]):
            return None
        ops = []
        for op, oo in zip(c["ops"], o["ops"]):
            if op["op"] == "add":
                ops.append("%s %s %s %s" % ("DAdd" if k == "demux" else "SOpAdd", cstr(op["id"]), meta_term(op["nonce"], op["obfs"]),
                                            "true" if oo["ok"] else "false"))
            elif op["op"] == "rm":
                if k == "demux":
                    ops.append("DRm %s" % cstr(op["id"]))
                else:
                    ops.append("SOpRm %s %s" % (cstr(op["id"]), lst(ev_term(e) for e in oo.get("evs", []))))
            elif op["op"] == "pkts":
                ps = lst(pkt_term(p, c["buf"], s) for p, s in zip(op["pkts"], oo["stun"]))
                if k == "demux":
                    ret = lst("(%d, (%d)%%Z, %s)" % (r["dg"], r["port"], "true" if r["err"] else "false") for r in oo["ret"])
                    ops.append("DPkts %s %s" % (ps, ret))
                else:
                    ret = lst("(%d, (%d)%%Z, %s)" % (r["dg"], r["port"], "true" if r["err"] else "false") for r in oo["ret"])
                    ops.append("SOpPkts %s %s" % (ps, ret))
            elif op["op"] == "drain":
                ops.append("DDrain %s %s" % (lst(ev_term(e) for e in oo["evs"]), lst(str(x) for x in oo["stuns"])))
            elif op["op"] == "take":
                ops.append("SOpTake %s %s" % (cstr(op["id"]), lst(ev_term(e) for e in oo["evs"])))
            elif op["op"] == "rstart":
                if "ok" not in oo or "ncand" not in oo:
                    return None
                tmo = 400 if op.get("tmo") is None else op["tmo"]           # c20RespondTimeout / c20RespondInterval, ms
                itv = 50 if op.get("itv") is None else op["itv"]
                args = "(mkRA %s %s %d%%nat (%d)%%Z (%d)%%Z)" % (cstr(op["id"]), meta_term(op["nonce"], op["obfs"]), oo["ncand"],
                                                               tmo * 1000000, itv * 1000000)
                obs = "ObsBlocked" if oo["ok"] else ROBS.get(oo.get("err"), "ObsOther")
                ops.append("SOpRStart %s %s" % (args, obs))
            elif op["op"] == "pstop":
                ops.append("SOpStop")
            elif op["op"] == "rend":
                ops.append("SOpREnd %s %s" % ("true" if oo["res"] == "noevent" else "false",
                                              "(Some %s)" % ev_term(oo["ev"]) if oo["res"] == "ok" else "None"))
        return "%s (%d)%%Z %s" % ("CDemux" if k == "demux" else "CServer", c["cap"], lst(ops))
    if k == "rt":
        return rt_to_coq(c, o)
    return None


RT_SITE = {"quic": "OsQuic", "startup": "OsStartup", "reregister": "OsReRegister", "connect": "OsConnect"}
RT_WHO = {"quic": "RQuic", "direct": "RDirect", "via": "RVia"}
RT_END = (b"\x41" + b"c20rt-end-of-stream-marker").hex()
RT_ATTEMPT = "c20rt-attempt"


def rt_is_stun(c, h, kinds):
    """classification by construction: the stream's own kinds; anything else that is STUN is an answer of a harness STUN server"""
    if h in kinds:
        return kinds[h] == "stun"
    b = bytes.fromhex(h)
    return len(b) == 32 and b[:2] == b"\x01\x01" and py_stun_hdr_ok(b) and b[20:22] == b"\x00\x20"


def rt_log(c, o):
    """the raw-socket log as one sequence: [(tag, ...)], with the hand-over placed before the first entry made while serving.
    Punch packets of the attempt the runtime registers itself (either fate is fine) are left out."""
    kinds = {d["hex"]: d["kind"] for d in c["dg"]}
    dont = set(c.get("rtpunch") or [])
    dls = list(o.get("dls") or [])
    out, served, di = [], False, 0

    def serve(flag):
        nonlocal served
        if flag and not served:
            served = True
            out.append(("serve",))

    def flush(upto):
        nonlocal di
        while di < len(dls) and dls[di]["at"] <= upto:
            d = dls[di]
            serve(d["serving"])
            out.append(("dl", d["who"], d["site"], not d["zero"]))
            di += 1

    for ri, r in enumerate(o.get("reads") or []):
        flush(ri)
        serve(r["serving"])
        if r.get("err"):
            if r["err"] == "timeout":
                out.append(("err", r["who"]))
            continue
        if r["hex"] in dont:
            continue
        out.append(("read", r["who"], r["site"], r["hex"], r["port"], rt_is_stun(c, r["hex"], kinds)))
    flush(10 ** 9)
    serve(True)
    return out


def rt_to_coq(c, o):
    if o.get("skip") or o.get("panic") or "reads" not in o:
        return None
    log = rt_log(c, o)
    dont = set(c.get("rtpunch") or [])
    terms = []
    for e in log:
        if e[0] == "serve":
            terms.append("LServe")
        elif e[0] == "dl":
            terms.append("LDeadline %s %s %s" % (RT_WHO.get(e[1], "RVia"), RT_SITE.get(e[2], "OsOther"), "true" if e[3] else "false"))
        elif e[0] == "err":
            terms.append("LErr %s" % RT_WHO.get(e[1], "RVia"))
        else:
            terms.append("LRead %s %s %s (%d)%%Z %s" % (RT_WHO.get(e[1], "RVia"), RT_SITE.get(e[2], "OsOther"), cb(bytes.fromhex(e[3])),
                                                      e[4], "true" if e[5] else "false"))
    # what the QUIC side received, as positions in the log
    idx, p = [], 0
    for g in o.get("got") or []:
        if g in dont:
            continue
        q = p
        while q < len(log) and not (log[q][0] == "read" and log[q][1] == "quic" and log[q][3] == g):
            q += 1
        if q < len(log):
            idx.append(q)
            p = q + 1
        else:
            idx.append(10 ** 6)
    return "CRt %s %s %s %s" % (cstr(RT_ATTEMPT), meta_term(c["meta"][0], c["meta"][1]), lst(terms), lst(str(i) for i in idx))


def py_rt_verdict(c, o):
    """independent recomputation of the runtime-stage verdict from the raw lists"""
    if o.get("skip") or "got" not in o:
        return None
    skip = set(c.get("early") or []) | set(c.get("rtpunch") or []) | {RT_END}
    want = [d["hex"] for d in c["dg"][:o["nsent"]] if d["kind"] not in ("stun", "punch")]
    have = [g for g in o["got"] if g not in skip]
    if have != want:
        bad = next((i for i, (a, b) in enumerate(zip(have, want)) if a != b), min(len(have), len(want)))
        return ("python: the QUIC-side reader received %d datagrams, %d datagrams that are neither STUN nor punch packets of a registered attempt "
                "were sent while it was serving; first difference at position %d" % (len(have), len(want), bad))
    if o.get("qerrs"):
        return "python: the QUIC-side ReadFrom failed (%s) although nobody closed the socket" % o["qerrs"][0]
    if RT_END not in o["got"]:
        return "python: the end-of-stream marker never reached the QUIC-side reader"
    return None


# ---------------------------------------------------------------- python verdict (independent of Go and Coq)

def addr_ok(a):
    return a["udp"] and len(a["ip"]) in (8, 32) and 0 < a["port"] <= 65535


def py_verdict(c, o):
    """Returns None or a string describing the disagreement between the implementation and the hashlib reference."""
    k = c["k"]
    if o.get("panic"):
        return None  # already a violation
    if k == "enc":
        valid = meta_ok(c["nonce"], c["obfs"]) is not None and c["ty"] in (1, 2)
        if "hex" in o:
            if not valid:
                return "python: EncodePunchPacket accepted invalid input"
            pkt = bytes.fromhex(o["hex"])
            d = py_decode(pkt, c["nonce"], c["obfs"])
            if d != ("ok", c["ty"], len(pkt) - MINW):
                return "python: encoded packet does not decode with hashlib (%s)" % (d,)
        elif valid:
            return "python: EncodePunchPacket rejected valid input"
        return None
    if k == "dec":
        d = py_decode(bytes.fromhex(c["hex"]), c["nonce"], c["obfs"])
        got = ("ok", o["ty"], o["pad"]) if "ty" in o else (o.get("err"),)
        if d[0] == "ok" or got[0] == "ok":
            if d != got:
                return "python: DecodePunchPacket gives %s, hashlib reference gives %s" % (got, d)
        elif got[0] != "anyerr" and got != d:
            return "python: DecodePunchPacket error class %s, reference %s" % (got, d)
        w = c.get("want")
        if w is not None and (w["ok"] != (d[0] == "ok") or (w["ok"] and (w["ty"], w["pad"]) != d[1:])):
            return "generator: expectation by construction %s differs from the hashlib reference %s" % (w, d)
        return None
    if k == "demux":
        if "ops" not in o:
            return None
        reg = {}
        for oi, (op, oo) in enumerate(zip(c["ops"], o["ops"])):
            if op["op"] == "add":
                valid = op["id"] != "" and meta_ok(op["nonce"], op["obfs"]) is not None
                if valid != oo["ok"]:
                    return "python: op %d AddPunchAttempt ok=%s, expected %s" % (oi, oo["ok"], valid)
                if valid:
                    reg[op["id"]] = (op["nonce"], op["obfs"])
            elif op["op"] == "rm":
                reg.pop(op["id"], None)
            elif op["op"] == "pkts":
                exp = []
                for p, st in zip(op["pkts"], oo["stun"]):
                    data = bytes.fromhex(p["hex"])[:c["buf"]]
                    if p["err"]:
                        exp.append((0, 0, True))
                        continue
                    if p.get("sx") is not None and len(bytes.fromhex(p["hex"])) <= c["buf"] and bool(p["sx"]) != st:
                        return "python: op %d STUN oracle answers %s on a datagram built as %s" % (oi, st, p.get("kind"))
                    if st and not py_stun_hdr_ok(data):
                        return "python: op %d STUN oracle accepts a datagram without a binding-success header" % oi
                    if st:
                        continue
                    if addr_ok(p["addr"]) and any(py_decode(data, n, kk)[0] == "ok" for n, kk in reg.values()):
                        continue
                    exp.append((common.digest(data), p["addr"]["port"], False))
                got = [(r["dg"], r["port"], r["err"]) for r in oo["ret"]]
                if got != exp:
                    return "python: op %d returned datagrams %s, reference expects %s" % (oi, got[:6], exp[:6])
        return None
    if k == "server":
        return py_server_verdict(c, o)
    if k == "rt":
        return py_rt_verdict(c, o)
    return None


def py_server_verdict(c, o):
    """ServerPuncher reference: both registries are one dict keyed by the exact id string; Respond = register, wait for the
    first punch packet of the attempt, unregister the same string.  Where two registered attempts decode the same datagram
    (shared metadata) the map order decides who gets the event: the reference then follows what the run reported."""
    if "ops" not in o or len(o["ops"]) != len(c["ops"]):
        return None
    reg = {}
    fl = None          # id of the Respond that is still waiting
    flres = None       # output of its rend
    alive = True       # the dispatch goroutine is running
    for oi, (op, oo) in enumerate(zip(c["ops"], o["ops"])):
        kind = op["op"]
        if kind == "pstop":
            alive = False
        elif kind in ("add", "rstart"):
            if "ok" not in oo:
                return None
            if kind == "add":
                valid = op["id"] != "" and meta_ok(op["nonce"], op["obfs"]) is not None and op["id"] not in reg
                exit_ = "accepted" if valid else "rejected"
            else:
                exit_ = rstart_expect(op, reg)
                valid = exit_ == "block"
            if valid != oo["ok"]:
                return "python: op %d %s(%r) %s, reference (arguments checked in program order, registry keyed by the exact id string) expects %s" % (
                    oi, "addAttempt" if kind == "add" else "Respond", op["id"],
                    ("accepted" if kind == "add" else "registered and waits") if oo["ok"] else "returned at once (%s)" % oo.get("err", "rejected"), exit_)
            if valid:
                if kind == "rstart" and fl is not None:
                    return None      # not a history the generator makes
                reg[op["id"]] = (op["nonce"], op["obfs"])
                if kind == "rstart":
                    fl = op["id"]
                    flres = next((x for x in o["ops"][oi + 1:] if x["op"] == "rend"), None)
        elif kind == "rm":
            reg.pop(op["id"], None)
            if fl == op["id"]:
                fl = None
        elif kind == "rend":
            if fl is not None:
                if oo.get("res") != "noevent":
                    return "python: op %d Respond(%r) reports %s although no punch packet of its attempt was read" % (oi, fl, oo.get("res"))
                reg.pop(fl, None)
                fl = None
            flres = None
        elif kind == "pkts":
            exp = []
            for p, st in zip(op["pkts"], oo["stun"]):
                data = bytes.fromhex(p["hex"])[:c["buf"]]
                if p["err"]:
                    exp.append((0, 0, True))
                    continue
                if st:
                    if not py_stun_hdr_ok(data):
                        return "python: op %d STUN oracle accepts a datagram without a binding-success header" % oi
                    continue
                hits = [i for i, (n, kk) in reg.items() if py_decode(data, n, kk)[0] == "ok"] if addr_ok(p["addr"]) else []
                if not hits:
                    exp.append((common.digest(data), p["addr"]["port"], False))
                    continue
                if fl in hits and alive:
                    took = (flres is not None and flres.get("res") == "ok" and flres["ev"]["port"] == p["addr"]["port"])
                    if len(hits) == 1 and not took:
                        return "python: op %d Respond(%r) did not return on the first punch packet of its attempt (source port %d)" % (
                            oi, fl, p["addr"]["port"])
                    if took:
                        d = py_decode(data, *reg[fl])
                        ev = flres["ev"]
                        ip = p["addr"]["ip"]
                        ip = ip[24:] if len(ip) == 32 and ip.startswith("00" * 10 + "ffff") else ip
                        if (ev["ty"], ev["pad"]) != d[1:] or ev["ip"] != ip:
                            return "python: op %d Respond(%r) result %s does not describe the datagram %s" % (oi, fl, ev, d)
                        reg.pop(fl)          # the deferred removeAttempt of the same string
                        fl = None
            got = [(r["dg"], r["port"], r["err"]) for r in oo["ret"]]
            if got != exp:
                bad = next((i for i, (a, b) in enumerate(zip(got, exp)) if a != b), min(len(got), len(exp)))
                return ("python: op %d: the reader received %d datagram(s), reference expects %d; first difference at return %d: got %s, expected %s "
                        "(registered at that point: %s)" % (oi, len(got), len(exp), bad, got[bad:bad + 1], exp[bad:bad + 1], sorted(reg)))
    return None


# ---------------------------------------------------------------- classes

def klass(c, o):
    k = c["k"]
    if k == "enc":
        return "enc:" + ("ok" if "hex" in o else str(o.get("err")))
    if k == "dec":
        return "dec:%s:%s" % (c.get("cls"), "ok" if "ty" in o else o.get("err"))
    if k == "demux":
        return "demux"
    if k == "rt":
        return "rt:%s%s" % (c.get("name"), ":skipped" if o.get("skip") else "")
    return k


def rt_hist(c, o, h):
    if o.get("skip") or "reads" not in o:
        return
    kinds = {d["hex"]: d["kind"] for d in c["dg"]}
    got = set(o.get("got") or [])
    for r in o["reads"]:
        key = "rt:socket-read:%s:%s:%s%s" % (r["who"], r["site"], "serving" if r["serving"] else "startup", ":" + r["err"] if r.get("err") else "")
        h[key] = h.get(key, 0) + 1
    for d in o.get("dls") or []:
        key = "rt:socket-deadline:%s:%s:%s:%s" % (d["who"], d["site"], "serving" if d["serving"] else "startup", "clear" if d["zero"] else "arm")
        h[key] = h.get(key, 0) + 1
    for d in c["dg"][:o.get("nsent", 0)]:
        key = "rt:dg:%s->%s" % (d["kind"], "quic" if d["hex"] in got else "withheld")
        h[key] = h.get(key, 0) + 1
    for key in ("sessions", "regcalls", "stunserving", "connects", "heartbeats"):
        h["rt:total-" + key] = h.get("rt:total-" + key, 0) + int(o.get(key) or 0)


def pkt_hist(cases, outs):
    h = {}
    for c, o in zip(cases, outs):
        if c["k"] == "rt":
            rt_hist(c, o, h)
            continue
        if c["k"] not in ("demux", "server") or "ops" not in o or len(o["ops"]) != len(c["ops"]):
            continue
        stopped = waiting = False
        for op, oo in zip(c["ops"], o["ops"]):
            if op["op"] in ("rstart", "rend", "add", "rm") and c["k"] == "server":
                oid = op.get("id", "")
                idc = ("lower" if oid == oid.lower() else "with-upper-case") + ("" if go_hex(oid) is not None and oid else "-nonhex")
                key = "srv:%s:%s" % (op["op"], oo.get("res", oo.get("ok", idc if op["op"] == "rm" else "")))
                if op["op"] in ("rstart", "add"):
                    key += ":id-" + idc
                h[key] = h.get(key, 0) + 1
                if op["op"] == "rstart":
                    key = "respond-call:" + ("registered" if oo.get("ok") else "returned-" + str(oo.get("err")))
                    if stopped:
                        key += ":puncher-context-cancelled"
                    h[key] = h.get(key, 0) + 1
                if op["op"] == "rend":
                    key = "respond-exit:%s%s" % ("event" if oo.get("res") == "ok" else op.get("end") if oo.get("res") == "noevent" else "none",
                                                 ":puncher-context-cancelled" if stopped else "")
                    h[key] = h.get(key, 0) + 1
            if op["op"] == "pstop":
                stopped = True
                key = "srv:pstop:" + ("respond-waiting" if waiting else "idle")
                h[key] = h.get(key, 0) + 1
            if op["op"] == "rstart" and oo.get("ok"):
                waiting = True
            if op["op"] == "rend":
                waiting = False
            if op["op"] != "pkts" or "ret" not in oo:
                continue
            passed = {r["port"] for r in oo["ret"] if not r["err"]}
            for p, st in zip(op["pkts"], oo["stun"]):
                if p["err"]:
                    d = "err"
                elif st:
                    d = "stun"
                elif p["addr"]["port"] in passed:
                    d = "pass"
                else:
                    d = "punch"
                key = "pkt:%s->%s" % (p.get("kind", "linearised-concurrent"), d)
                h[key] = h.get(key, 0) + 1
            h["op:pkts"] = h.get("op:pkts", 0) + 1
        for oo in o["ops"]:
            if oo["op"] == "drain" and "evs" in oo and "stuns" in oo:
                h["ev:punch"] = h.get("ev:punch", 0) + len(oo["evs"])
                h["ev:stun"] = h.get("ev:stun", 0) + len(oo["stuns"])
    return h


def nontrivial(c, o):
    k = c["k"]
    if k == "enc":
        return "hex" in o
    if k == "dec":
        return "ty" in o or c.get("cls") not in ("noise",)
    if k == "demux" and "ops" in o:
        nret = sum(len(oo.get("ret", [])) for oo in o["ops"])
        npk = sum(len(op.get("pkts", [])) for op in c["ops"])
        return 0 < nret < npk
    if k == "server" and "ops" in o:
        return any(oo.get("evs") or oo.get("res") == "ok" for oo in o["ops"])
    if k == "conc":
        return any(o.get("passed", [])) and any(o.get("evid", []))
    if k == "rt":
        # a STUN discovery ran while QUIC was serving (re-registration or stale cache) with traffic flowing
        return not o.get("skip") and o.get("stunserving", 0) >= 1 and o.get("nhave", 0) >= 20
    return False


def fingerprint(c, o):
    return None


def violations_of(cases, outs):
    """One violation per category (case kind + message with the numbers blanked), first witness kept."""
    import re
    vs, seen = [], set()
    for c, o in zip(cases, outs):
        why = None
        if o.get("ok") is False:
            why = o.get("why") or "property predicate false"
        else:
            why = py_verdict(c, o)
        if not why:
            continue
        key = c.get("k", "") + ":" + re.sub(r"\d+", "#", re.sub(r"\[.*", "", re.sub(r'"[^"]*"', '"_"', re.sub(r"'[^']*'", "'_'", why))))[:70]
        if key in seen:
            continue
        seen.add(key)
        vs.append({"what": "%s: %s" % (c.get("k"), why[:400]), "replay": {"case": c, "impl": o},
                   "fingerprint": fingerprint(c, o), "found_input": True})
    return vs


def search(ctx, disagreeing):
    """Property-directed search on the implementation alone (no model): more seeds."""
    found = []
    for s in range(3):
        rng = random.Random(ctx.seed * 1000 + s + 17)
        cases = gen(rng, "quick")
        ok, outs, _, log = common.run_go_cases(ctx, GO, cases, tag="search%d" % s)
        found = violations_of(cases, outs)
        if found:
            break
    if not found:
        cases = gen_rt(random.Random(ctx.seed * 1000 + 99), "quick")
        ok, outs, _, log = common.run_go_cases(ctx, GO_RT, cases, tag="searchrt")
        found = violations_of(cases, outs)
    return found


# ---------------------------------------------------------------- concurrent histories -> sequential witness

def linearise(c, o):
    """Greedy linearisation of a concurrent run: returns (demux case, impl-shaped output) or an error string."""
    muts, pk = c["mut"], c["pkts"]
    mst, pst = o["mst"], o["pst"]
    states = [set()]
    for op, a in muts:
        s = set(states[-1])
        (s.add if op == 1 else s.discard)(a)
        states.append(s)
    pos = []
    j = 0
    for i, p in enumerate(pk):
        if pst[i]["s"] < 0:
            pos.append(None)
            continue
        lo = sum(1 for m in mst if m["e"] < pst[i]["s"])
        hi = sum(1 for m in mst if m["s"] < pst[i]["e"])
        j = max(j, lo)
        want_div = not o["passed"][i]
        while j <= hi and ((p["att"] in states[j]) if p["att"] >= 0 else False) != want_div:
            j += 1
        if j > hi:
            return "packet %d (attempt %d, %s) has no linearisation point between mutator ops %d..%d" % (
                i, p["att"], "withheld" if want_div else "passed", lo, hi)
        pos.append(j)
    ops, oo = [], []
    nxt = 0

    def flush_muts(upto):
        nonlocal nxt
        while nxt < upto:
            op, a = muts[nxt]
            if op == 1:
                ops.append({"op": "add", "id": "att-%d" % a, "nonce": c["metas"][a][0], "obfs": c["metas"][a][1]})
                oo.append({"op": "add", "ok": True})
            else:
                ops.append({"op": "rm", "id": "att-%d" % a})
                oo.append({"op": "rm"})
            nxt += 1

    evs = []
    for i, p in enumerate(pk):
        if pos[i] is None:
            continue
        flush_muts(pos[i])
        data = bytes.fromhex(p["hex"])
        ops.append({"op": "pkts", "pkts": [{"err": False, "hex": p["hex"], "addr": p["addr"]}]})
        ret = [{"dg": common.digest(data), "port": p["addr"]["port"], "err": False}] if o["passed"][i] else []
        oo.append({"op": "pkts", "stun": [False], "ret": ret})
        if not o["passed"][i]:
            d = py_decode(data, *c["metas"][p["att"]])
            evs.append({"id": o["evid"][i], "ip": p["addr"]["ip"], "port": p["addr"]["port"], "ty": d[1], "pad": d[2]})
    flush_muts(len(muts))
    ops.append({"op": "drain"})
    oo.append({"op": "drain", "evs": evs, "stuns": []})
    return {"k": "demux", "cap": len(pk) + 1, "buf": c["buf"], "ops": ops}, {"k": "demux", "ops": oo}


# ---------------------------------------------------------------- driver

def run(ctx):
    rng = random.Random(ctx.seed)
    cases = gen(rng, ctx.tier)
    violations = []
    # the runtime stage (app/cmd) runs next to the main stage: other module, other package
    import threading
    rt_cases = gen_rt(random.Random(ctx.seed * 7919 + 20), ctx.tier)
    rt_res = {}
    rt_t0 = time.time()
    rt_thread = threading.Thread(target=lambda: rt_res.update(r=common.run_go_cases(ctx, GO_RT, rt_cases, tag="rt", timeout=1200),
                                                               wall=time.time() - rt_t0))
    rt_thread.start()
    ok, outs, params, golog = common.run_go_cases(ctx, GO, cases)
    if not ok:
        ctx.say("Go harness failed:\n" + golog[-3000:])
        violations.append({"what": "tie broken: Go harness for C20 did not build/run against the current tree (%s)" % golog.strip()[-400:],
                           "replay": {"broken": "go harness", "log": golog[-4000:]}, "found_input": False, "fingerprint": None})
        outs = outs if len(outs) == len(cases) else []
    # thorough: concurrent registration/removal while reading, under the race detector
    conc_info = {}
    if ctx.tier == "thorough" and ok:
        ccases = gen_conc(random.Random(ctx.seed + 7), int(os.environ.get("VERIF_C20_CONC", "300")))
        cok, couts, _, clog = common.run_go_cases(ctx, GO, ccases, tag="conc", race=True, timeout=1500)
        if not cok:
            ctx.say("concurrent stage failed:\n" + clog[-3000:])
            violations.append({"what": "concurrent add/remove while reading: run failed or data race reported (%s)" % clog.strip()[-600:],
                               "replay": {"broken": "go -race run", "log": clog[-4000:]}, "found_input": "DATA RACE" in clog,
                               "fingerprint": None})
        else:
            nlin = 0
            for cc, co in zip(ccases, couts):
                if co.get("ok") is False:
                    continue
                lin = linearise(cc, co)
                if isinstance(lin, str):
                    co["ok"], co["why"] = False, "not linearisable against the atomic registry: " + lin
                else:
                    cases.append(lin[0])
                    outs.append(lin[1])
                    nlin += 1
            violations += violations_of(ccases, couts)
            conc_info = {"concurrent_histories": len(ccases), "linearised_and_replayed_in_model": nlin,
                         "concurrent_nontrivial": sum(1 for cc, co in zip(ccases, couts) if nontrivial(cc, co))}
    rt_thread.join()
    rok, routs, _, rlog = rt_res.get("r") or (False, [], None, "runtime stage did not run")
    rt_info = {}
    if not rok:
        ctx.say("runtime stage (app/cmd) failed:\n" + rlog[-3000:])
        violations.append({"what": "tie broken: the Go harness for the realm server runtime (app/cmd) did not build/run against the current tree (%s)" % rlog.strip()[-400:],
                           "replay": {"broken": "go harness app/cmd", "log": rlog[-4000:]}, "found_input": False, "fingerprint": None})
    else:
        nskip = sum(1 for o in routs if o.get("skip"))
        ctx.say("runtime stage (app/cmd): %d histories, %d skipped, %.1fs" % (len(rt_cases), nskip, rt_res.get("wall", 0)))
        rt_info = {"runtime_histories": len(rt_cases), "runtime_histories_skipped": nskip,
                   "runtime_histories_nontrivial": sum(1 for c_, o_ in zip(rt_cases, routs) if nontrivial(c_, o_))}
        if nskip * 2 > len(rt_cases):
            why = next((o.get("skip") for o in routs if o.get("skip")), "")
            violations.append({"what": "tie broken: more than half of the realm server runtime histories could not be started (%s)" % why,
                               "replay": {"broken": "go harness app/cmd", "skips": [o.get("skip") for o in routs]}, "found_input": False, "fingerprint": None})
        if outs or not cases:
            cases = cases + rt_cases
            outs = outs + routs
    if params is not None:
        if common.write_params(PARAMS_NAME, [tuple(p) for p in params]):
            ctx.say("Params changed -> rebuilding dependants")
    proof_ok, pinfo = common.proof_stage(ctx, ctx.pid, extra_targets=EXTRA_TARGETS)
    if not proof_ok:
        ctx.say("PROOF STAGE BROKEN: " + json.dumps({k: pinfo[k] for k in pinfo if k != "theorems"})[:3000])
    mism, corr_ok, corr_err, compared = [], True, "", 0
    if outs:
        terms, idxmap = [], []
        for i, (c, o) in enumerate(zip(cases, outs)):
            t = to_coq(c, o)
            if t is not None:
                terms.append(t)
                idxmap.append(i)
        compared = len(terms)
        t1 = time.time()
        eok, mm, err = common.eval_cases(ctx, "cases", HEADER, terms, PER_SHARD)
        ctx.say("coq evaluation of %d cases: %.1fs" % (len(terms), time.time() - t1))
        if not eok:
            corr_ok, corr_err = False, err
            ctx.say("CORRESPONDENCE EVALUATION FAILED: " + err)
        mism = [idxmap[j] for j in mm]
    hist = {}
    nontriv = set()
    for c, o in zip(cases, outs):
        kk = klass(c, o)
        hist[kk] = hist.get(kk, 0) + 1
        if nontrivial(c, o):
            nontriv.add(json.dumps(c, sort_keys=True))
    hist.update(pkt_hist(cases, outs))
    violations += violations_of(cases, outs)
    impl_bad = any(v.get("found_input") for v in violations)
    broken = []
    if not proof_ok:
        broken.append("proof obligation (%s)" % pinfo.get("broken_at", pinfo.get("forbidden", "assumptions")))
    if mism:
        broken.append("correspondence C20_Corr on %d case(s), first: case %d kind %s" % (len(mism), mism[0], cases[mism[0]]["k"]))
    if not corr_ok:
        broken.append("correspondence evaluation (%s)" % corr_err[:200])
    if broken and not impl_bad:
        found = search(ctx, [cases[i] for i in mism[:20]]) if ok else []
        if found:
            violations += found
        else:
            violations.append({
                "what": "no longer shown to hold: " + "; ".join(broken),
                "replay": {"broken": broken, "proof": {k: pinfo.get(k) for k in ("broken_at", "build_log_tail", "forbidden", "theorems")},
                           "disagreeing_cases": [{"case": cases[i], "impl": outs[i]} for i in mism[:10]]},
                "fingerprint": None, "found_input": False})
    elif mism and impl_bad:
        ctx.say("model/implementation disagree on %d case(s) (implementation also violates the property directly)" % len(mism))
    ctx.say("input classes: " + json.dumps(hist, sort_keys=True))
    samples = [{"case": c, "impl": {k: v for k, v in o.items() if k != "i"}} for c, o in list(zip(cases, outs))[:2]]
    for kind in ("dec", "demux"):
        for c, o in zip(cases, outs):
            if c["k"] == kind and nontrivial(c, o):
                samples.append({"case": c, "impl": {k: v for k, v in o.items() if k != "i"}})
                break
    cov = {"evaluations": len(cases), "distinct_nontrivial": len(nontriv), "rule": RULE, "samples": samples,
           "traces_validated_against_impl": compared, "model_impl_disagreements": len(mism), "input_classes": hist}
    cov.update(conc_info)
    cov.update(rt_info)
    return common.finish(ctx, pinfo, cov, violations, ASSUMPTIONS, trusted_extra=TRUSTED)


def replay(ctx, path):
    r = json.load(open(path))
    c = r["replay"].get("case")
    if not c:
        print("replay file names a broken obligation/correspondence, no concrete input:", r["what"])
        return 1
    ok, outs, _, log = common.run_go_cases(ctx, GO_RT if c.get("k") == "rt" else GO, [c], tag="replay", race=(c.get("k") == "conc"))
    print(json.dumps(outs, indent=1))
    if not outs:
        print(log[-2000:])
        return 1
    pv = py_verdict(c, outs[0])
    if pv:
        print(pv)
    return 0 if outs[0].get("ok") and not pv else 1


LEVEL_TEXT = ("Machine-checked Coq theorems over a statement-by-statement Gallina model of the punch codec (EncodePunchPacket/DecodePunchPacket, "
              "hex metadata, SHA-256 mask), the PunchPacketConn demultiplexer as a labelled transition system over its atomic sections "
              "(AddPunchAttempt, RemovePunchAttempt, one datagram through the ReadFrom loop, event channels) and the ServerPuncher routing and "
              "Respond life cycle (both registries keyed by the exact id string; for every outcome of Respond - each validation exit, the duplicate-id "
              "exit, success, timeout, cancellation, with the puncher's lifetime context cancelled at any point - the exits before the registration "
              "change nothing (a waiting Respond with the same id stays registered), and after Respond has returned the id is in neither registry, late "
              "packets of the finished attempt reach the reader unchanged and the id can be registered again): "
              "for every datagram, source address, registry history, event-buffer size and map-iteration order, a datagram is withheld iff it "
              "is a STUN binding response or decodes under a currently registered attempt (from a usable UDP source), otherwise it is returned "
              "unchanged with its address; encode/decode round trip for both types and every padding length <= 1024; nothing outside 33..1057 "
              "bytes decodes; any single-bit flip in magic/type/nonce breaks decoding; decoding under other metadata forces a mask "
              "coincidence (stated); never panics. Socket ownership (model/C20_Owner.v: receive queue, readers, the shared read deadline, the two phases of the "
              "server runtime of app/cmd/server.go and which discovery each of its sites runs): in every history in which QUIC is the only reader every datagram "
              "that leaves the socket and is neither STUN nor decodable under any attempt ever registered is returned to QUIC exactly once and in order, nothing goes "
              "elsewhere and no QUIC-side read fails; the runtime as written has QUIC as its only reader once it serves, for every well-formed history (startup "
              "discovery, hand-over, any number of session losses / re-registrations / per-connect refreshes); refuted (with witnesses) for two readers, for a "
              "deadline armed by another party, and for the runtime with the re-registration refresh run on the socket itself. Proved for an arbitrary hash and instantiated with an in-kernel FIPS 180-4 SHA-256. "
              "Tied to /repo on every run by regenerated constants and a differential run against the model (vm_compute) plus an independent hashlib reference.")
LEVEL_NOTE = ("Trusted: Coq kernel + vm_compute; hand-written model (tie = sampled differential testing + regenerated Params); python/Go glue. "
              "No axioms. Not proved: pion/stun's decoder (oracle; necessary header condition checked at run time), SHA-256 collision "
              "resistance (named hypothesis mask_collision_free in two corollaries), the Go memory model / RWMutex (atomicity of the LTS steps is assumed; "
              "thorough tier runs concurrent add/remove under -race and replays a linearisation through the model).")
TECHNIQUE = "Coq proof (codec algebra + invariant over registry histories) on a hand-written model + differential correspondence check in vm_compute + hashlib reference"
DESIGN_REF = "DESIGN.md section 4 C20"
