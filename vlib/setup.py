"""MANIFEST.setup_cmd: build the whole Coq development (full .vo) and warm the Go build cache."""
import importlib
import os
import subprocess
import sys
import time

from vlib import common


def prop_modules():
    d = os.path.join(common.VERIF, "vlib", "props")
    out = []
    for n in sorted(os.listdir(d)):
        if n.endswith(".py") and n[0] == "C":
            out.append(importlib.import_module("vlib.props." + n[:-3]))
    return out


def main():
    t0 = time.time()
    ctx = common.Ctx("_setup", "quick", 1)
    ok, log = common.coq_make(["all"], timeout=3000)
    print("coq build: %s in %.0fs" % ("ok" if ok else "FAILED", time.time() - t0))
    if not ok:
        print(log[-4000:])
    # warm the Go build cache: compile each harness (no test run)
    rc_all = 0
    for m in prop_modules():
        specs = getattr(m, "GO_ALL", None) or ([m.GO] if hasattr(m, "GO") else [])
        for g in specs:
            overlay = dict(g["files"])
            overlay["zz_verif_util_test.go"] = common.make_util(ctx, g["pkgname"])
            t = time.time()
            rc, out = common.go_test(ctx, g["module"], g["pkg"], overlay, "XXX_none", timeout=900)
            print("go warm %s %s/%s rc=%d %.0fs" % (m.__name__, g["module"], g["pkg"], rc, time.time() - t))
            if rc != 0:
                print(out[-2000:])
                rc_all = 1
    print("setup done in %.0fs" % (time.time() - t0))
    # every check rebuilds what it needs and reports a broken build itself; setup only warms caches
    return 0


if __name__ == "__main__":
    sys.exit(main())
